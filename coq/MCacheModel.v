(** C04 -- implementation model M of the LRU chunk cache hdf/src/mcache.c: buckets with PINNED/DIRTY flags on an
    LRU queue, eviction of the first unpinned bucket with write-back when dirty, page-in through a callback
    (HMCPchunkread: the fill page for absent chunks), page-out through a callback (HMCPchunkwrite),
    write-back of all dirty buckets on sync.  Flag and comparison expressions come from coq/gen/Gen_Chunk.v.
    The hash chains (hqh, lhqh) only speed up lookups by page number and are modelled as searches.
    Total computable definitions only. *)
From Coq Require Import ZArith List Bool.
Require Import H4.gen.Gen_Chunk.
Import ListNotations.
Local Open Scope Z_scope.

Definition page := list Z.

Record bkt := mkbkt { b_pgno : Z; b_flags : Z; b_page : page }.

Record mcache := mkmc {
  lqh : list bkt;            (* LRU queue, head first: eviction candidates are searched from the head *)
  curcache : Z;
  maxcache : Z;
  npages : Z;
  elems : list (Z * Z)       (* L_ELEM list: (pgno, eflags) *)
}.

Definition nz (z : Z) : bool := negb (z =? 0).

Section WithStore.
  Variable store : Type.
  Variable pgin : store -> Z -> option page.             (* 0-based chunk number *)
  Variable pgout : store -> Z -> page -> option store.

  (** mcache_open(..., flags = 0): every page 1..npages is known and marked ELEM_SYNC (exists on disk) *)
  Definition mcache_open (maxc np : Z) : mcache :=
    mkmc [] 0 (if maxc =? 0 then DEF_MAXCACHE else maxc) np
         (map (fun k => (Z.of_nat k, ELEM_SYNC)) (rev (seq 1 (Z.to_nat np)))).

  Fixpoint set_eflag (l : list (Z * Z)) (pgno fl : Z) : list (Z * Z) :=
    match l with
    | [] => []
    | (p, f) :: r => if nz (mcache_put_q_if_1 pgno p) then (p, fl) :: r else (p, f) :: set_eflag r pgno fl
    end.

  Fixpoint find_bkt (l : list bkt) (pgno : Z) : option bkt :=
    match l with
    | [] => None
    | b :: r => if b_pgno b =? pgno then Some b else find_bkt r pgno
    end.

  Fixpoint remove_bkt (l : list bkt) (pgno : Z) : list bkt :=
    match l with
    | [] => []
    | b :: r => if b_pgno b =? pgno then r else b :: remove_bkt r pgno
    end.

  (** mcache_write: mark the element ELEM_SYNC, page out, clear DIRTY *)
  Definition mcache_write (el : list (Z * Z)) (s : store) (b : bkt) : option (list (Z * Z) * store * bkt) :=
    match pgout s (b_pgno b - 1) (b_page b) with
    | Some s' => Some (set_eflag el (b_pgno b) mcache_write_q_lp_eflags_0, s',
                       mkbkt (b_pgno b) (mcache_write_q_bp_flags_0 (b_flags b)) (b_page b))
    | None => None
    end.

  (** the eviction walk of mcache_bkt: first bucket that is not pinned *)
  Fixpoint first_unpinned (l : list bkt) : option bkt :=
    match l with
    | [] => None
    | b :: r => if nz (mcache_bkt_q_if_1 (b_flags b)) then Some b else first_unpinned r
    end.

  (** mcache_bkt: -> (cache without the recycled bucket, store after a possible write-back, stale page content) *)
  Definition mcache_bkt (mp : mcache) (s : store) : option (mcache * store * page) :=
    if nz (mcache_bkt_q_if_0 (curcache mp) (maxcache mp)) then
      Some (mkmc (lqh mp) (curcache mp + 1) (maxcache mp) (npages mp) (elems mp), s, [])
    else
      match first_unpinned (lqh mp) with
      | Some b =>
          if nz (mcache_put_q_if_0 (b_flags b)) then
            match mcache_write (elems mp) s b with
            | Some (el, s', _) =>
                Some (mkmc (remove_bkt (lqh mp) (b_pgno b)) (curcache mp) (maxcache mp) (npages mp) el, s', b_page b)
            | None => None
            end
          else Some (mkmc (remove_bkt (lqh mp) (b_pgno b)) (curcache mp) (maxcache mp) (npages mp) (elems mp), s, b_page b)
      | None => Some (mkmc (lqh mp) (curcache mp + 1) (maxcache mp) (npages mp) (elems mp), s, [])
      end.

  Fixpoint list_hit (l : list (Z * Z)) (pgno : Z) : bool :=
    match l with
    | [] => false
    | (p, f) :: r => if nz (mcache_get_q_if_2 f p pgno) then true else list_hit r pgno
    end.

  (** mcache_get: -> (cache with the page pinned at the LRU tail, store, page content) *)
  Definition mcache_get (mp : mcache) (s : store) (pgno : Z) : option (mcache * store * page) :=
    if nz (mcache_get_q_if_0 (npages mp) pgno) then None
    else match find_bkt (lqh mp) pgno with
    | Some b =>
        let b' := mkbkt (b_pgno b) (mcache_get_q_bp_flags_0 (b_flags b)) (b_page b) in
        Some (mkmc (remove_bkt (lqh mp) pgno ++ [b']) (curcache mp) (maxcache mp) (npages mp) (elems mp), s, b_page b)
    | None =>
        match mcache_bkt mp s with
        | None => None
        | Some (mp1, s1, stale) =>
            if list_hit (elems mp1) pgno then
              match pgin s1 (pgno - 1) with
              | None => None
              | Some pg =>
                  Some (mkmc (lqh mp1 ++ [mkbkt (mcache_get_q_bp_pgno_0 pgno) mcache_get_q_bp_flags_1 pg])
                             (curcache mp1) (maxcache mp1) (npages mp1)
                             (set_eflag (elems mp1) pgno mcache_get_q_lp_eflags_1), s1, pg)
              end
            else
              (* never referenced: no read, the page is whatever the recycled/new buffer holds *)
              Some (mkmc (lqh mp1 ++ [mkbkt (mcache_get_q_bp_pgno_0 pgno) mcache_get_q_bp_flags_1 stale])
                         (curcache mp1) (maxcache mp1) (npages mp1)
                         ((mcache_get_q_lp_pgno_0 pgno, mcache_get_q_lp_eflags_0) :: elems mp1), s1, stale)
        end
    end.

  (** mcache_put: the caller hands the (possibly modified in place) page back; unpin, or in DIRTY *)
  Fixpoint put_bkt (l : list bkt) (pgno : Z) (pg : page) (flags : Z) : list bkt :=
    match l with
    | [] => []
    | b :: r => if b_pgno b =? pgno
                then mkbkt (b_pgno b) (mcache_put_q_bp_flags_1 (mcache_put_q_bp_flags_0 (b_flags b)) flags) pg :: r
                else b :: put_bkt r pgno pg flags
    end.

  Definition mcache_put (mp : mcache) (pgno : Z) (pg : page) (flags : Z) : mcache :=
    let l := put_bkt (lqh mp) pgno pg flags in
    let dirty := match find_bkt l pgno with Some b => nz (mcache_put_q_if_0 (b_flags b)) | None => false end in
    mkmc l (curcache mp) (maxcache mp) (npages mp)
         (if dirty then set_eflag (elems mp) pgno mcache_put_q_lp_eflags_0 else elems mp).

  (** mcache_sync: walk the LRU queue, write every dirty bucket *)
  Fixpoint sync_walk (l : list bkt) (el : list (Z * Z)) (s : store) : option (list bkt * list (Z * Z) * store) :=
    match l with
    | [] => Some ([], el, s)
    | b :: r =>
        if nz (mcache_put_q_if_0 (b_flags b)) then
          match mcache_write el s b with
          | None => None
          | Some (el1, s1, b1) =>
              match sync_walk r el1 s1 with
              | None => None
              | Some (r', el2, s2) => Some (b1 :: r', el2, s2)
              end
          end
        else
          match sync_walk r el s with
          | None => None
          | Some (r', el2, s2) => Some (b :: r', el2, s2)
          end
    end.

  Definition mcache_sync (mp : mcache) (s : store) : option (mcache * store) :=
    match sync_walk (lqh mp) (elems mp) s with
    | None => None
    | Some (l, el, s') => Some (mkmc l (curcache mp) (maxcache mp) (npages mp) el, s')
    end.

  (** mcache_set_maxcache *)
  Definition mcache_set_maxcache (mp : mcache) (mx : Z) : mcache :=
    if nz (mcache_set_maxcache_q_if_0 mx (maxcache mp))
    then mkmc (lqh mp) (curcache mp) (mcache_set_maxcache_q_mp_maxcache_0 mx) (npages mp) (elems mp)
    else if nz (mcache_set_maxcache_q_if_1 mx (curcache mp))
         then mkmc (lqh mp) (curcache mp) (mcache_set_maxcache_q_mp_maxcache_1 mx) (npages mp) (elems mp)
         else mp.

  (** one balanced access, as HMCPread / HMCPwrite / HMCreadChunk / HMCwriteChunk perform it:
      get, let the caller transform the page, put back with the DIRTY flag or 0 *)
  Definition mc_access (mp : mcache) (s : store) (pgno : Z) (f : page -> page) (flags : Z)
    : option (mcache * store * page) :=
    match mcache_get mp s pgno with
    | None => None
    | Some (mp1, s1, pg) => Some (mcache_put mp1 pgno (f pg) flags, s1, pg)
    end.
End WithStore.

(** Concrete instance used by the correspondence test and by the refinement theorem: the backing store is a
    total map chunk number (0-based) -> page; absent chunks are represented by the fill page inside the map. *)
Definition fstore := Z -> page.
Definition fs_in (s : fstore) (n : Z) : option page := Some (s n).
Definition fs_out (s : fstore) (n : Z) (p : page) : option fstore := Some (fun k => if k =? n then p else s k).

(** test driver: operations  (0, pgno, v) get+put clean | (1, pgno, v) get, set page to [v; old head..], put DIRTY
    | (2,_,_) sync | (3, n, _) set maxcache;   output per op: the page content seen (or [-1] on failure) *)
Definition mc_test_step (st : mcache * fstore) (op : Z * Z * Z) : (mcache * fstore) * list Z :=
  let '(mp, s) := st in
  let '(k, pgno, v) := op in
  if k =? 0 then
    match mc_access fstore fs_in fs_out mp s pgno (fun p => p) 0 with
    | Some (mp', s', pg) => ((mp', s'), pg) | None => ((mp, s), [-1]) end
  else if k =? 1 then
    match mc_access fstore fs_in fs_out mp s pgno (fun p => v :: removelast p) MCACHE_DIRTY with
    | Some (mp', s', pg) => ((mp', s'), pg) | None => ((mp, s), [-1]) end
  else if k =? 2 then
    match mcache_sync fstore fs_out mp s with
    | Some (mp', s') => ((mp', s'), [0]) | None => ((mp, s), [-1]) end
  else ((mcache_set_maxcache mp pgno, s), [maxcache (mcache_set_maxcache mp pgno)]).

Fixpoint mc_test_run (st : mcache * fstore) (ops : list (Z * Z * Z)) : list (list Z) * (mcache * fstore) :=
  match ops with
  | [] => ([], st)
  | o :: r => let (st', out) := mc_test_step st o in
              let (outs, fin) := mc_test_run st' r in (out :: outs, fin)
  end.

(** run a test: cache size, page count, page size, fill value; returns per-op outputs and the final backing store
    contents of pages 0..np-1 *)
Definition mc_test (maxc np psize fill : Z) (ops : list (Z * Z * Z)) : list (list Z) * list (list Z) :=
  let s0 : fstore := fun _ => repeat fill (Z.to_nat psize) in
  let (outs, fin) := mc_test_run (mcache_open maxc np, s0) ops in
  (outs, map (fun k => snd fin (Z.of_nat k)) (seq 0 (Z.to_nat np))).
