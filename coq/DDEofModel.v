(** C12 -- HTPstart's recovery of the end of the file (f_end_off) from the DD blocks it reads.
    The four expressions (block end test / assignment, element end test / assignment) are regenerated from the body
    of HTPstart (the Gen_DD.HTPstart_ definitions).  int32 wrap-around is C20's subject and is not modelled.  No proofs here. *)
From Coq Require Import ZArith List Bool.
Require Import H4.gen.Gen_DD.
Import ListNotations.
Local Open Scope Z_scope.

(** layout of one DD block as read from the file: its offset, its ndds, and (offset, length) of every DD in it
    (NIL and deleted descriptors included, as in the C loop) *)
Record lblock := mklb { lb_off : Z; lb_ndds : Z; lb_dds : list (Z * Z) }.

Definition eof_dd (e : Z) (d : Z * Z) : Z :=
  if HTPstart_dd_end_test (fst d) (snd d) >? e then HTPstart_dd_end_set (fst d) (snd d) else e.

Definition eof_block (e : Z) (b : lblock) : Z :=
  let e1 := if HTPstart_blk_end_test (lb_off b) (lb_ndds b) >? e
            then HTPstart_blk_end_set (lb_off b) (lb_ndds b) else e in
  fold_left eof_dd (lb_dds b) e1.

(** end_off starts at 0 and is raised block by block *)
Definition htpstart_end_off (bl : list lblock) : Z := fold_left eof_block bl 0.

(** what the file format says: a DD block is a header of NDDS_SZ + OFFSET_SZ bytes and ndds records of DD_SZ bytes *)
Definition block_end (b : lblock) : Z := lb_off b + (NDDS_SZ + OFFSET_SZ) + lb_ndds b * DD_SZ.

Definition eof_covers (e : Z) (bl : list lblock) : bool :=
  forallb (fun b => (block_end b <=? e) && forallb (fun d => fst d + snd d <=? e) (lb_dds b)) bl.
