(** C14 -- proofs about the effect model ROModel (M) and the monitor specification ROSpec (S). *)
From Coq Require Import ZArith List Bool Lia.
Import ListNotations.
Require Import H4.gen.Gen_RO H4.ROModel.
Local Open Scope Z_scope.

(** * The guards regenerated from the sources say what they have to say *)

Lemma land2_cases : forall z, Z.land z 2 = 0 \/ Z.land z 2 <> 0.
Proof. intro z. destruct (Z.eq_dec (Z.land z 2) 0); auto. Qed.

Lemma hstartaccess_denied_spec : forall flags facc,
  hstartaccess_denied flags facc = 1 <-> (Z.land flags DFACC_WRITE <> 0 /\ Z.land facc DFACC_WRITE = 0).
Proof.
  intros. unfold hstartaccess_denied, DFACC_WRITE.
  destruct (Z.eqb_spec (Z.land flags 2) 0); destruct (Z.eqb_spec (Z.land facc 2) 0); simpl; split; intros; try lia; try discriminate;
    try (destruct H as [? ?]; try contradiction; try lia); auto.
Qed.

Lemma hstartaccess_denied_01 : forall flags facc, hstartaccess_denied flags facc = 0 \/ hstartaccess_denied flags facc = 1.
Proof.
  intros. unfold hstartaccess_denied.
  destruct (Z.eqb (Z.land flags 2) 0); destruct (Z.eqb (Z.land facc 2) 0); simpl; auto.
Qed.

(** every single-argument "no write bit -> denied" guard *)
Definition write_guard (g : Z -> Z) : Prop := forall acc, g acc = 1 <-> Z.land acc DFACC_WRITE = 0.

Lemma wg_generic : forall acc, (if Z.eqb (Z.land acc 2) 0 then 1 else 0) = 1 <-> Z.land acc 2 = 0.
Proof. intro acc. destruct (Z.eqb_spec (Z.land acc 2) 0); split; intro; auto; try discriminate; contradiction. Qed.
Ltac wg := unfold write_guard, DFACC_WRITE; exact wg_generic.

Lemma hwrite_guard : write_guard hwrite_denied.           Proof. unfold hwrite_denied. wg. Qed.
Lemma htrunc_guard : write_guard htrunc_denied.           Proof. unfold htrunc_denied. wg. Qed.
Lemma hsetlength_guard : write_guard hsetlength_denied.   Proof. unfold hsetlength_denied. wg. Qed.
Lemma hlcreate_guard : write_guard hlcreate_denied.       Proof. unfold hlcreate_denied. wg. Qed.
Lemma hlconvert_guard : write_guard hlconvert_denied.     Proof. unfold hlconvert_denied. wg. Qed.
Lemma hxcreate_guard : write_guard hxcreate_denied.       Proof. unfold hxcreate_denied. wg. Qed.
Lemma hccreate_guard : write_guard hccreate_denied.       Proof. unfold hccreate_denied. wg. Qed.
Lemma hmccreate_guard : write_guard hmccreate_denied.     Proof. unfold hmccreate_denied. wg. Qed.
Lemma hmcwritechunk_guard : write_guard hmcwritechunk_denied. Proof. unfold hmcwritechunk_denied. wg. Qed.
Lemma hdupdd_guard : write_guard hdupdd_denied.           Proof. unfold hdupdd_denied. wg. Qed.
Lemma hdeldd_guard : write_guard hdeldd_denied.           Proof. unfold hdeldd_denied. wg. Qed.
Lemma hdreuse_guard : write_guard hdreuse_denied.         Proof. unfold hdreuse_denied. wg. Qed.
Lemma vdelete_guard : write_guard vdelete_denied.         Proof. unfold vdelete_denied. wg. Qed.
Lemma vsdelete_guard : write_guard vsdelete_denied.       Proof. unfold vsdelete_denied. wg. Qed.
Lemma vsattach_new_guard : write_guard vsattach_new_denied. Proof. unfold vsattach_new_denied. wg. Qed.

Lemma vattach_denied_spec : forall mode facc,
  vattach_denied mode facc = 1 <-> (mode = CH_W /\ Z.land facc DFACC_WRITE = 0).
Proof.
  intros. unfold vattach_denied, CH_W, DFACC_WRITE.
  destruct (Z.eqb_spec mode 119); destruct (Z.eqb_spec (Z.land facc 2) 0); simpl; split; intros; try lia; try discriminate; auto;
    try (destruct H as [? ?]; try contradiction; try lia).
Qed.

Lemma v_setters_need_w : forall acc, acc <> CH_W ->
  vsetname_denied acc = 1 /\ vaddtagref_denied acc = 1 /\ vdeletetagref_denied acc = 1 /\ vswrite_denied acc = 1.
Proof.
  intros acc H. unfold vsetname_denied, vaddtagref_denied, vdeletetagref_denied, vswrite_denied, CH_W in *.
  destruct (Z.eqb_spec acc 119); [contradiction|]. simpl. auto.
Qed.
Lemma vs_setters_refuse_r : vssetname_denied CH_R = 1.
Proof. reflexivity. Qed.

Lemma special_staccess : forall facc,
  Z.land facc DFACC_WRITE = 0 ->
  hlistaccess_denied facc hl_stwrite_mode = 1 /\ hxistaccess_denied facc hl_stwrite_mode = 1 /\
  hcistaccess_denied facc hl_stwrite_mode = 1 /\ hmcistaccess_denied facc hl_stwrite_mode = 1.
Proof.
  intros facc H. unfold hlistaccess_denied, hxistaccess_denied, hcistaccess_denied, hmcistaccess_denied, hl_stwrite_mode, DFACC_WRITE in *.
  rewrite H. simpl. auto.
Qed.
Lemma special_read_access_has_no_write_bit :
  Z.land (hlistaccess_access hl_stread_mode) DFACC_WRITE = 0 /\ Z.land (hxistaccess_access hl_stread_mode) DFACC_WRITE = 0 /\
  Z.land (hcistaccess_access hl_stread_mode) DFACC_WRITE = 0 /\ Z.land (hmcistaccess_access hl_stread_mode) DFACC_WRITE = 0.
Proof. repeat split; reflexivity. Qed.

(** Hopen: a mode without DFACC_WRITE (and not the bare DFACC_CREATE, which truncates) yields a read-only stream and
    file access flags without the write bit *)
Lemma hopen_readonly_flags : forall mode, Z.land mode DFACC_WRITE = 0 ->
  hopen_stream_writable mode = 0 /\ Z.land (hopen_existing_access mode) DFACC_WRITE = 0.
Proof.
  intros mode H. unfold hopen_stream_writable, hopen_existing_access, DFACC_WRITE in *. split; [assumption|].
  rewrite Z.land_lor_distr_l. rewrite H. reflexivity.
Qed.

(** Hclose refreshes the version element only when the file allows writing *)
Lemma hclose_no_update_without_write_access : forall refcount modified facc,
  Z.land facc DFACC_WRITE = 0 -> hclose_updates_version refcount modified facc = 0.
Proof.
  intros refcount modified facc H. unfold hclose_updates_version, DFACC_WRITE in *. rewrite H. simpl.
  rewrite andb_false_r. reflexivity.
Qed.
Lemma hclose_update_spec : forall refcount modified facc,
  hclose_updates_version refcount modified facc = 1 <-> (0 < refcount /\ modified = 1 /\ Z.land facc DFACC_WRITE <> 0).
Proof.
  intros. unfold hclose_updates_version, DFACC_WRITE.
  destruct (Z.ltb_spec 0 refcount); destruct (Z.eqb_spec modified 1); destruct (Z.eqb_spec (Z.land facc 2) 0); simpl;
    split; intros; try discriminate; try lia; auto; try (destruct H1 as (? & ? & ?); try contradiction; try lia);
    try (destruct H2 as (? & ? & ?); try contradiction; try lia).
Qed.
Lemma hclose_fails_spec : forall r, hclose_fails_when_update_fails r = 1 <-> r = FAIL.
Proof.
  intro r. unfold hclose_fails_when_update_fails, FAIL. simpl.
  destruct (Z.eqb_spec r (-1)); split; intro; auto; try discriminate; contradiction.
Qed.

(** VSsetfields defines the record layout only for a vdata attached for writing that has neither records nor fields *)
Lemma vssetfields_define_spec : forall acc nv wn,
  vssetfields_defines_layout acc nv wn = 1 <-> (acc = CH_W /\ nv = 0 /\ wn = 0).
Proof.
  intros. unfold vssetfields_defines_layout, CH_W.
  destruct (Z.eqb_spec acc 119); destruct (Z.eqb_spec nv 0); destruct (Z.eqb_spec wn 0); simpl; split; intros;
    try discriminate; auto; try (destruct H as (? & ? & ?); contradiction).
Qed.
Lemma vssetfields_define_needs_w : forall acc nv wn, acc <> CH_W -> vssetfields_defines_layout acc nv wn = 0.
Proof.
  intros acc nv wn H. unfold vssetfields_defines_layout, CH_W in *.
  destruct (Z.eqb_spec acc 119); [contradiction|]. reflexivity.
Qed.

(** * The read-only invariant *)

Definition ro_inv (f : frec) : Prop :=
  Z.land (f_access f) DFACC_WRITE = 0 /\ f_dirty f = 0 /\
  Forall (fun a => Z.land (a_access a) DFACC_WRITE = 0) (f_recs f) /\
  Forall (fun v => v_access v = CH_R) (f_vrecs f).

Lemma find_some_in : forall A (p : A -> bool) l x, find p l = Some x -> In x l /\ p x = true.
Proof. intros. apply find_some in H. assumption. Qed.

Lemma Forall_filter : forall A (P : A -> Prop) p l, Forall P l -> Forall P (filter p l).
Proof. intros. rewrite Forall_forall in *. intros x Hx. apply filter_In in Hx. destruct Hx. auto. Qed.

Lemma denied1_nz : forall z, z = 1 -> nz z = true.
Proof. intros. subst. reflexivity. Qed.

Lemma nz_false : forall z, nz z = false -> z = 0.
Proof. intros z H. unfold nz in H. destruct (Z.eqb_spec z 0); auto. discriminate. Qed.

Lemma inv_check_g : forall g, ro_inv g -> ro_inv (hicheckfileversion g).
Proof.
  intros g (A & B & C & D). unfold hicheckfileversion. destruct (f_ver g) as [[x y] z].
  destruct (nz _); unfold ro_inv; simpl; auto.
Qed.

Ltac fin := split; [ try assumption | split; [ try reflexivity; auto | try discriminate; auto; try (let C := fresh in intro C; unfold DFACC_WRITE in *; contradiction) ] ].

(** results of the guards on a read-only state, as rewriting facts *)
Section RO.
Variable f : frec.
Hypothesis Hinv : ro_inv f.

Let Hacc : Z.land (f_access f) DFACC_WRITE = 0. Proof. destruct Hinv; assumption. Qed.
Let Hdirty : f_dirty f = 0. Proof. destruct Hinv as (_ & H & _); assumption. Qed.
Let Hrecs : Forall (fun a => Z.land (a_access a) DFACC_WRITE = 0) (f_recs f). Proof. destruct Hinv as (_ & _ & H & _); assumption. Qed.
Let Hvrecs : Forall (fun v => v_access v = CH_R) (f_vrecs f). Proof. destruct Hinv as (_ & _ & _ & H); assumption. Qed.

Lemma rec_ro : forall aid a, find_rec f aid = Some a -> Z.land (a_access a) DFACC_WRITE = 0.
Proof.
  intros aid a H. unfold find_rec in H. apply find_some_in in H. destruct H as [Hin _].
  rewrite Forall_forall in Hrecs. apply Hrecs. assumption.
Qed.
Lemma vrec_ro : forall k v, find_vrec f k = Some v -> v_access v = CH_R.
Proof.
  intros k v H. unfold find_vrec in H. apply find_some_in in H. destruct H as [Hin _].
  rewrite Forall_forall in Hvrecs. apply Hvrecs. assumption.
Qed.

Lemma inv_upd_version : forall a b c, ro_inv (upd_version f a b c).
Proof. intros. unfold ro_inv. simpl. auto. Qed.
Lemma inv_check : ro_inv (hicheckfileversion f).
Proof.
  unfold hicheckfileversion. destruct (f_ver f) as [[x y] z].
  destruct (nz _); apply inv_upd_version.
Qed.
Lemma inv_drop_rec : forall aid, ro_inv (drop_rec f aid).
Proof. intros. unfold ro_inv, drop_rec. simpl. repeat split; auto. apply Forall_filter. assumption. Qed.
Lemma inv_drop_vrec : forall k, ro_inv (drop_vrec f k).
Proof. intros. unfold ro_inv, drop_vrec. simpl. repeat split; auto. apply Forall_filter. assumption. Qed.
Lemma inv_put_rec : forall a, Z.land (a_access a) DFACC_WRITE = 0 -> ro_inv (put_rec f a).
Proof.
  intros. unfold ro_inv, put_rec, drop_rec. simpl. repeat split; auto.
  constructor; auto. apply Forall_filter. assumption.
Qed.
Lemma inv_new_rec : forall acc n ap sp t r, Z.land acc DFACC_WRITE = 0 -> ro_inv (fst (new_rec f acc n ap sp t r)).
Proof. intros. unfold ro_inv, new_rec. simpl. repeat split; auto. Qed.
Lemma inv_new_vrec : forall b aid, ro_inv (fst (new_vrec f b CH_R aid)).
Proof. intros. unfold ro_inv, new_vrec. simpl. repeat split; auto. Qed.
Lemma inv_upd_cache : forall c, ro_inv (upd_cache f c).
Proof. intros. unfold ro_inv. simpl. auto. Qed.
Lemma inv_upd_open : forall c, ro_inv (upd_open f c).
Proof. intros. unfold ro_inv. simpl. auto. Qed.

Lemma hisync_ro : hisync f = (f, 0, []).
Proof.
  unfold hisync. rewrite Hdirty. unfold hisync_flushes.
  destruct (Z.eqb (f_cache f) 0); reflexivity.
Qed.

(** Hstartaccess on a read-only file: never writes, keeps the invariant, fails when asked to write *)
Lemma hstartaccess_ro : forall tag ref flags f' r w,
  hstartaccess f tag ref flags = (f', r, w) ->
  ro_inv f' /\ w = [] /\ (Z.land flags DFACC_WRITE <> 0 -> r = FAIL /\ f' = f).
Proof.
  intros tag ref flags f' r w H. unfold hstartaccess in H.
  destruct (f_open f); simpl in H; [| inversion H; subst; auto].
  destruct (land2_cases flags) as [Hfl | Hfl].
  - (* a read request *)
    assert (Hd : hstartaccess_denied flags (f_access f) = 0).
    { destruct (hstartaccess_denied_01 flags (f_access f)) as [E | E]; auto.
      apply hstartaccess_denied_spec in E. destruct E as [E _]. unfold DFACC_WRITE in E. contradiction. }
    rewrite Hd in H. simpl in H.
    assert (Hnc : hstartaccess_nocreate flags = 1). { unfold hstartaccess_nocreate. rewrite Hfl. reflexivity. }
    assert (Hsr : hstartaccess_special_read flags = 1). { unfold hstartaccess_special_read. rewrite Hfl. reflexivity. }
    destruct (find_dd f tag ref) as [d|].
    + destruct (d_special d).
      * rewrite Hsr in H. simpl in H.
        destruct (nz (hlistaccess_denied (f_access f) hl_stread_mode)).
        { inversion H; subst. fin. }
        { assert (I2 : ro_inv (fst (new_rec f (hlistaccess_access hl_stread_mode) false false true tag ref))).
          { apply (inv_new_rec (hlistaccess_access hl_stread_mode) false false true tag ref). reflexivity. }
          unfold new_rec in H, I2. simpl in H, I2.
          destruct (d_ext d || f_vset f); inversion H; subst;
            (split; [ first [ exact I2 | apply inv_check_g; exact I2 ]
                    | split; [ reflexivity | let C := fresh in intro C; unfold DFACC_WRITE in *; contradiction ] ]). }
      * unfold new_rec in H. simpl in H.
        match type of H with (if f_vset f then ?g else _, _, _) = _ => assert (I2 : ro_inv g) end.
        { unfold ro_inv; simpl; split; [assumption | split; [assumption | split; [constructor; [exact Hfl | assumption] | assumption]]]. }
        destruct (f_vset f) eqn:Vs; inversion H; subst;
          (split; [ first [ assumption | apply inv_check_g; assumption ]
                  | split; [ reflexivity | let C := fresh in intro C; unfold DFACC_WRITE in *; contradiction ] ]).
    + rewrite Hnc in H. simpl in H. inversion H; subst. fin.
  - (* a write request is denied *)
    assert (Hd : hstartaccess_denied flags (f_access f) = 1).
    { apply hstartaccess_denied_spec. split; assumption. }
    rewrite Hd in H. simpl in H. inversion H; subst. repeat split; auto.
Qed.

Lemma hstartwrite_ro : forall tag ref len, hstartwrite f tag ref len = (f, FAIL, []).
Proof.
  intros. unfold hstartwrite.
  destruct (hstartaccess f tag ref hstartwrite_flags) as [[f1 id] w1] eqn:E.
  apply hstartaccess_ro in E. destruct E as (_ & Hw & Hf).
  destruct Hf as [Hr Hff]. { unfold hstartwrite_flags, DFACC_WRITE. simpl. discriminate. }
  subst. reflexivity.
Qed.

Lemma hputelement_ro : forall tag ref len, hputelement f tag ref len = (f, FAIL, []).
Proof. intros. unfold hputelement. rewrite hstartwrite_ro. reflexivity. Qed.

Lemma hsetlength_ro : forall aid len, hsetlength f aid len = (f, FAIL, []).
Proof.
  intros. unfold hsetlength. destruct (find_rec f aid) as [a|] eqn:E; [|reflexivity].
  destruct (a_new a); simpl; [|reflexivity].
  apply rec_ro in E. apply hsetlength_guard in E. rewrite E. reflexivity.
Qed.

Lemma hwrite_ro : forall aid len, hwrite f aid len = (f, FAIL, []).
Proof.
  intros. unfold hwrite. destruct (find_rec f aid) as [a|] eqn:E; [|reflexivity].
  apply rec_ro in E. apply hwrite_guard in E. rewrite E. reflexivity.
Qed.

Lemma htrunc_ro : forall aid len, htrunc f aid len = (f, FAIL, []).
Proof.
  intros. unfold htrunc. destruct (find_rec f aid) as [a|] eqn:E; [|reflexivity].
  apply rec_ro in E. apply htrunc_guard in E. rewrite E. reflexivity.
Qed.

Lemma hlconvert_ro : forall aid, hlconvert f aid = (f, FAIL, []).
Proof.
  intros. unfold hlconvert. destruct (find_rec f aid) as [a|]; [|reflexivity].
  pose proof (proj2 (hlconvert_guard (f_access f)) Hacc) as E. rewrite E. reflexivity.
Qed.

Lemma hdupdd_ro : forall a b c d, hdupdd f a b c d = (f, FAIL, []).
Proof.
  intros. unfold hdupdd. destruct (f_open f); simpl; [|reflexivity].
  rewrite (proj2 (hdupdd_guard (f_access f)) Hacc). reflexivity.
Qed.
Lemma hdeldd_ro : forall a b, hdeldd f a b = (f, FAIL, []).
Proof.
  intros. unfold hdeldd. destruct (f_open f); simpl; [|reflexivity].
  rewrite (proj2 (hdeldd_guard (f_access f)) Hacc). reflexivity.
Qed.
Lemma hdreuse_ro : forall a b, hdreuse f a b = (f, FAIL, []).
Proof.
  intros. unfold hdreuse. destruct (f_open f); simpl; [|reflexivity].
  rewrite (proj2 (hdreuse_guard (f_access f)) Hacc). reflexivity.
Qed.
Lemma hspecial_create_ro : forall w t r, hspecial_create f w t r = (f, FAIL, []).
Proof.
  intros. unfold hspecial_create. destruct (f_open f); simpl; [|reflexivity].
  assert (E : special_denied w (f_access f) = 1).
  { unfold special_denied. destruct (Z.eqb w 0); [apply hlcreate_guard; exact Hacc|].
    destruct (Z.eqb w 1); [apply hxcreate_guard; exact Hacc|].
    destruct (Z.eqb w 2); [apply hccreate_guard; exact Hacc| apply hmccreate_guard; exact Hacc]. }
  rewrite E. reflexivity.
Qed.

End RO.

(** * One step on a read-only state *)

Ltac t3 := split; [ try assumption | split; [ try reflexivity; try assumption | try discriminate; try (intros; reflexivity) ] ].

Lemma step_ro : forall f o f' r w,
  ro_inv f -> step f o = (f', r, w) ->
  ro_inv f' /\ w = [] /\ (mutating o = true -> r = FAIL).
Proof.
  intros f o f' r w Hinv H.
  pose proof Hinv as (Hacc & Hdirty & Hrecs & Hvrecs).
  destruct o; simpl in H.
  - (* OStartAccess *)
    apply (hstartaccess_ro f Hinv) in H. destruct H as (A & B & C). t3.
    simpl. intro M. apply C. unfold nz in M. destruct (Z.eqb_spec (Z.land flags DFACC_WRITE) 0); [discriminate | assumption].
  - rewrite (hstartwrite_ro f Hinv) in H. inversion H; subst. t3.
  - rewrite (hwrite_ro f Hinv) in H. inversion H; subst. t3.
  - (* ORead *)
    unfold hread in H. destruct (find_rec f aid) as [a|]; [| inversion H; subst; t3].
    destruct (a_new a); [inversion H; subst; t3|].
    rewrite Hdirty in H. simpl in H. rewrite andb_false_r in H. inversion H; subst. t3.
  - unfold hseek in H. destruct (find_rec f aid); inversion H; subst; t3.
  - rewrite (htrunc_ro f Hinv) in H. inversion H; subst. t3.
  - rewrite (hsetlength_ro f Hinv) in H. inversion H; subst. t3.
  - (* OAppendable *)
    unfold happendable in H. destruct (find_rec f aid) as [a|] eqn:E; [| inversion H; subst; t3].
    inversion H; subst. t3.
    apply (inv_put_rec f Hinv). simpl. eapply rec_ro; eauto.
  - (* OEndAccess *)
    unfold hendaccess in H. destruct (find_rec f aid) as [a|] eqn:E; [| inversion H; subst; t3].
    pose proof (rec_ro f Hinv _ _ E) as Ha.
    assert (W : (if a_special a && nz (Z.land (a_access a) DFACC_WRITE) then [WSpecialHeader] else []) = []).
    { rewrite Ha. simpl. rewrite andb_false_r. reflexivity. }
    rewrite W in H. inversion H; subst. t3. apply inv_drop_rec; assumption.
  - rewrite (hputelement_ro f Hinv) in H. inversion H; subst. t3.
  - rewrite (hdupdd_ro f Hinv) in H. inversion H; subst. t3.
  - rewrite (hdeldd_ro f Hinv) in H. inversion H; subst. t3.
  - rewrite (hdreuse_ro f Hinv) in H. inversion H; subst. t3.
  - rewrite (hspecial_create_ro f Hinv) in H. inversion H; subst. t3.
  - rewrite (hlconvert_ro f Hinv) in H. inversion H; subst. t3.
  - (* OSync *)
    unfold hsync in H. destruct (f_open f); simpl in H; [rewrite (hisync_ro f Hinv) in H|]; inversion H; subst; t3.
  - (* OCache *)
    unfold hcache in H. destruct (f_open f); simpl in H; [| inversion H; subst; t3].
    destruct (Z.eqb on 0); [rewrite (hisync_ro f Hinv) in H|]; inversion H; subst; t3; apply inv_upd_cache; assumption.
  - (* OVattach *)
    unfold vattach in H. destruct (f_open f); simpl in H; [| inversion H; subst; t3].
    destruct (Z.eqb_spec mode CH_R) as [ER | ER]; simpl in H.
    + subst mode.
      assert (Hd : vattach_denied CH_R (f_access f) = 0) by reflexivity.
      rewrite Hd in H. simpl in H.
      destruct (Z.eqb ref (-1)).
      * simpl in H. inversion H; subst. t3.
      * destruct (find_dd f DFTAG_VG ref); [| inversion H; subst; t3].
        unfold new_vrec in H. inversion H; subst. t3.
        apply (inv_new_vrec f Hinv false FAIL).
    + destruct (Z.eqb_spec mode CH_W) as [EW | EW]; simpl in H; [| inversion H; subst; t3].
      subst mode.
      assert (Hd : vattach_denied CH_W (f_access f) = 1). { apply vattach_denied_spec. split; auto. }
      rewrite Hd in H. simpl in H. inversion H; subst. t3.
  - (* OVSattach *)
    unfold vsattach in H. destruct (f_open f); simpl in H; [| inversion H; subst; t3].
    destruct (Z.eqb_spec mode CH_R) as [ER | ER]; simpl in H.
    + subst mode. destruct (Z.eqb ref (-1)).
      * simpl in H. inversion H; subst. t3.
      * destruct (find_dd f DFTAG_VH ref); [| inversion H; subst; t3].
        simpl in H.
        destruct (hstartaccess f DFTAG_VS ref DFACC_READ) as [[f1 aid] w1] eqn:E.
        apply (hstartaccess_ro f Hinv) in E. destruct E as (I1 & W1 & _). subst w1.
        destruct (Z.eqb aid FAIL); [inversion H; subst; t3|].
        unfold new_vrec in H. inversion H; subst. t3.
        apply (inv_new_vrec f1 I1 true aid).
    + destruct (Z.eqb_spec mode CH_W) as [EW | EW]; simpl in H; [| inversion H; subst; t3].
      subst mode. destruct (Z.eqb ref (-1)).
      * simpl in H. rewrite (proj2 (vsattach_new_guard (f_access f)) Hacc) in H. simpl in H. inversion H; subst. t3.
      * destruct (find_dd f DFTAG_VH ref); [| inversion H; subst; t3].
        simpl in H. rewrite (hstartwrite_ro f Hinv) in H. simpl in H. inversion H; subst. t3.
  - (* OVset *)
    unfold vset in H. destruct (find_vrec f key) as [v|] eqn:E; [| inversion H; subst; t3].
    pose proof (vrec_ro f Hinv _ _ E) as Hv. rewrite Hv in H.
    assert (D : nz (if v_isvs v then vssetname_denied CH_R else vsetname_denied CH_R) = true) by (destruct (v_isvs v); reflexivity).
    rewrite D in H. inversion H; subst. t3.
  - (* OVSwrite *)
    unfold vswrite in H. destruct (find_vrec f key) as [v|] eqn:E; [| inversion H; subst; t3].
    destruct (v_isvs v); simpl in H; [| inversion H; subst; t3].
    pose proof (vrec_ro f Hinv _ _ E) as Hv. rewrite Hv in H. simpl in H. inversion H; subst. t3.
  - (* OVSdefine *)
    unfold vsdefine in H. destruct (find_vrec f key) as [v|] eqn:E; [| inversion H; subst; t3].
    destruct (v_isvs v); simpl in H; [| inversion H; subst; t3].
    pose proof (vrec_ro f Hinv _ _ E) as Hv. rewrite Hv in H.
    rewrite (vssetfields_define_needs_w CH_R nv wn) in H by (unfold CH_R, CH_W; discriminate). simpl in H.
    destruct (0 <? nv) eqn:N; inversion H; subst; t3.
    simpl. intro M. apply Z.leb_le in M. apply Z.ltb_lt in N. lia.
  - (* OVdetach *)
    unfold vdetach in H. destruct (find_vrec f key) as [v|] eqn:E; [| inversion H; subst; t3].
    pose proof (vrec_ro f Hinv _ _ E) as Hv. rewrite Hv in H. simpl in H. inversion H; subst. t3.
    destruct (Z.eqb (v_aid v) FAIL); [apply inv_drop_vrec; assumption|].
    apply inv_drop_rec. apply inv_drop_vrec; assumption.
  - (* OVdelete *)
    unfold vdelete in H. destruct (f_open f); simpl in H; [| inversion H; subst; t3].
    assert (D : nz (if isvs then vsdelete_denied (f_access f) else vdelete_denied (f_access f)) = true).
    { destruct isvs; [rewrite (proj2 (vsdelete_guard (f_access f)) Hacc) | rewrite (proj2 (vdelete_guard (f_access f)) Hacc)]; reflexivity. }
    rewrite D in H. inversion H; subst. t3.
  - (* OClose *)
    unfold hclose in H. destruct (f_open f); simpl in H; [| inversion H; subst; t3].
    rewrite (hclose_no_update_without_write_access 1 (f_vmod f) (f_access f) Hacc) in H. simpl in H.
    destruct (f_recs f); [rewrite (hisync_ro f Hinv) in H|]; inversion H; subst; t3.
Qed.

(** * Histories *)

Lemma run_ro : forall ops f f' l,
  ro_inv f -> run f ops = (f', l) ->
  ro_inv f' /\ writes_of l = [] /\ length l = length ops /\
  Forall2 (fun o rw => snd rw = [] /\ (mutating o = true -> fst rw = FAIL)) ops l.
Proof.
  induction ops as [| o ops IH]; intros f f' l Hinv H; simpl in H.
  - inversion H; subst. split; [assumption | split; [reflexivity | split; [reflexivity | constructor]]].
  - destruct (step f o) as [[f1 r] w] eqn:E.
    destruct (run f1 ops) as [f2 l2] eqn:E2. inversion H; subst.
    apply (step_ro _ _ _ _ _ Hinv) in E. destruct E as (I1 & W & M).
    apply (IH _ _ _ I1) in E2. destruct E2 as (I2 & W2 & L2 & F2).
    split; [assumption | split; [| split]].
    + unfold writes_of in *. simpl. rewrite W. simpl. assumption.
    + simpl. rewrite L2. reflexivity.
    + constructor; auto.
Qed.

(** Hopen of an existing file without DFACC_WRITE gives a read-only state *)
Lemma hopen_ro_inv : forall mode dds fend dv,
  Z.land mode DFACC_WRITE = 0 -> ro_inv (hopen_existing mode dds fend dv).
Proof.
  intros mode dds fend dv Hm. unfold hopen_existing.
  set (f0 := {| f_open := true; f_access := hopen_existing_access mode; f_cache := 1; f_dirty := 0; f_dds := dds; f_end := fend;
                f_recs := []; f_vrecs := []; f_vset := false; f_vmod := 0; f_ver := (0, 0, 0); f_diskver := dv; f_next := 1 |}).
  assert (I0 : ro_inv f0).
  { unfold ro_inv, f0. simpl. repeat split; auto. apply hopen_readonly_flags. assumption. }
  destruct (hstartaccess f0 DFTAG_VERSION 1 DFACC_READ) as [[f1 aid] w] eqn:E.
  apply (hstartaccess_ro f0 I0) in E. destruct E as (I1 & _ & _).
  destruct (Z.eqb aid FAIL).
  - apply inv_upd_version. assumption.
  - destruct (hendaccess f1 aid) as [[f2 r2] w2] eqn:E2.
    assert (I2 : ro_inv f2).
    { unfold hendaccess in E2. destruct (find_rec f1 aid); inversion E2; subst; auto. apply inv_drop_rec. assumption. }
    apply inv_upd_version. assumption.
Qed.

Theorem ro_no_writes_full : forall mode dds fend dv ops,
  Z.land mode DFACC_WRITE = 0 ->
  writes_of (snd (run (hopen_existing mode dds fend dv) ops)) = [].
Proof.
  intros. destruct (run (hopen_existing mode dds fend dv) ops) as [f' l] eqn:E.
  apply run_ro in E; [| apply hopen_ro_inv; assumption]. simpl. tauto.
Qed.

Theorem ro_mutators_fail_full : forall mode dds fend dv ops,
  Z.land mode DFACC_WRITE = 0 ->
  Forall2 (fun o rw => mutating o = true -> fst rw = FAIL) ops (snd (run (hopen_existing mode dds fend dv) ops)).
Proof.
  intros. destruct (run (hopen_existing mode dds fend dv) ops) as [f' l] eqn:E.
  apply run_ro in E; [| apply hopen_ro_inv; assumption]. simpl.
  destruct E as (_ & _ & _ & F). clear -F. induction F as [| a b la lb [_ Hb] F' IHF]; constructor; auto.
Qed.

(** * Opening for writing and closing with no request *)

Lemma land_lor1_1 : forall m, Z.land (Z.lor m 1) 1 <> 0.
Proof.
  intros m E. rewrite Z.land_lor_distr_l in E. apply Z.lor_eq_0_iff in E. destruct E as [_ E]. discriminate E.
Qed.

Lemma hclose_clean : forall f, f_open f = true -> f_dirty f = 0 -> f_vmod f = 0 -> f_recs f = [] ->
  hclose f = (upd_open f false, 0, []).
Proof.
  intros f Ho Hd Hv Hr. unfold hclose. rewrite Ho. simpl.
  assert (E : hclose_updates_version 1 (f_vmod f) (f_access f) = 0).
  { rewrite Hv. unfold hclose_updates_version. simpl. reflexivity. }
  rewrite E. simpl. rewrite Hr.
  unfold hisync. rewrite Hd. unfold hisync_flushes. destruct (Z.eqb (f_cache f) 0); reflexivity.
Qed.

(** Hopen (any mode, existing file) leaves: no dirty flag, version not modified, no access record, the same DD list *)
Lemma hopen_existing_clean : forall mode dds fend dv,
  let f := hopen_existing mode dds fend dv in
  f_open f = true /\ f_dirty f = 0 /\ f_vmod f = 0 /\ f_recs f = [] /\ f_dds f = dds /\ f_end f = fend /\
  f_access f = hopen_existing_access mode.
Proof.
  intros mode dds fend dv. unfold hopen_existing.
  set (f0 := {| f_open := true; f_access := hopen_existing_access mode; f_cache := 1; f_dirty := 0; f_dds := dds; f_end := fend;
                f_recs := []; f_vrecs := []; f_vset := false; f_vmod := 0; f_ver := (0, 0, 0); f_diskver := dv; f_next := 1 |}).
  destruct (hstartaccess f0 DFTAG_VERSION 1 DFACC_READ) as [[f1 aid] w] eqn:E.
  assert (F : f_open f1 = true /\ f_dirty f1 = 0 /\ f_dds f1 = dds /\ f_end f1 = fend /\ f_access f1 = hopen_existing_access mode /\
              ((aid = FAIL /\ f_recs f1 = []) \/
               (aid = 1 /\ exists a, f_recs f1 = [a] /\ a_id a = 1))).
  { unfold hstartaccess in E. simpl f_open in E. cbv iota in E.
    assert (Hd : hstartaccess_denied DFACC_READ (f_access f0) = 0) by reflexivity.
    rewrite Hd in E. simpl nz in E. cbv iota in E.
    destruct (find_dd f0 DFTAG_VERSION 1) as [d|].
    - destruct (d_special d).
      + unfold new_rec in E. simpl in E. match type of E with (if nz ?x then _ else _) = _ => destruct (nz x) end.
        * inversion E; subst. simpl. do 5 (split; [reflexivity|]). left. split; reflexivity.
        * destruct (d_ext d || false); [| unfold hicheckfileversion in E; simpl in E ];
            inversion E; subst; simpl; do 5 (split; [reflexivity|]); right; (split; [reflexivity|]); eexists; split; reflexivity.
      + unfold new_rec in E. simpl in E. inversion E; subst. simpl. do 5 (split; [reflexivity|]). right. split; [reflexivity|]. eexists. split; reflexivity.
    - simpl in E. inversion E; subst. simpl. do 5 (split; [reflexivity|]). left. split; reflexivity. }
  destruct F as (A & B & C & D & G & [[Ha Hr] | [Ha [a [Hr Hid]]]]).
  - subst aid. simpl. repeat split; auto.
  - subst aid. simpl Z.eqb. cbv iota.
    unfold hendaccess, find_rec. rewrite Hr. simpl find. rewrite Hid. simpl Z.eqb. cbv iota.
    unfold drop_rec. rewrite Hr. simpl. rewrite Hid. simpl. repeat split; auto.
Qed.

Theorem rw_noop_preserves_full : forall mode dds fend dv,
  let f := hopen_existing mode dds fend dv in
  exists f', hclose f = (f', 0, []) /\ f_dds f' = dds /\ f_end f' = fend.
Proof.
  intros. destruct (hopen_existing_clean mode dds fend dv) as (A & B & C & D & E & F & _).
  exists (upd_open f false). split.
  - apply hclose_clean; assumption.
  - simpl. split; assumption.
Qed.

(** any write-mode session that issues only non-mutating operations which leave the version unmodified and the DD
    cache clean closes without a device write: stated on the state just before Hclose *)
Theorem close_writes_only_when_dirty_or_version_modified : forall f,
  f_open f = true -> f_dirty f = 0 -> f_vmod f = 0 -> f_recs f = [] -> snd (hclose f) = [].
Proof. intros. rewrite hclose_clean; auto. Qed.


(** * Position of the guards: every guard dominates its function, every upgrade follows its last failing exit *)

(** the regenerated structural facts have the values of a dominating guard: no conditional block encloses it, no
    effect precedes it, the guarded handle is not re-assigned after it *)
Lemma guards_dominate_full :
  sdcreate_guard_depth = 0 /\
  sdcreate_handle_reassigned_after_guard = 0 /\
  sdsetdimname_guard_depth = 0 /\
  sdsetdimname_handle_reassigned_after_guard = 0 /\
  sdsetrange_guard_depth = 0 /\
  sdsetrange_handle_reassigned_after_guard = 0 /\
  sdsetattr_guard_depth = 0 /\
  sdsetattr_handle_reassigned_after_guard = 0 /\
  sdsetdatastrs_guard_depth = 0 /\
  sdsetdatastrs_handle_reassigned_after_guard = 0 /\
  sdsetcal_guard_depth = 0 /\
  sdsetcal_handle_reassigned_after_guard = 0 /\
  sdsetfillvalue_guard_depth = 0 /\
  sdsetfillvalue_handle_reassigned_after_guard = 0 /\
  sdsetdimstrs_guard_depth = 0 /\
  sdsetdimstrs_handle_reassigned_after_guard = 0 /\
  sdsetdimscale_guard_depth = 0 /\
  sdsetdimscale_handle_reassigned_after_guard = 0 /\
  sdsetdimval_comp_guard_depth = 0 /\
  sdsetdimval_comp_handle_reassigned_after_guard = 0 /\
  sdwritedata_guard_depth = 0 /\
  sdwritedata_handle_reassigned_after_guard = 0 /\
  sdsetexternalfile_guard_depth = 0 /\
  sdsetexternalfile_handle_reassigned_after_guard = 0 /\
  sdsetcompress_guard_depth = 0 /\
  sdsetcompress_handle_reassigned_after_guard = 0 /\
  sdsetchunk_guard_depth = 0 /\
  sdsetchunk_handle_reassigned_after_guard = 0 /\
  sdsetnbitdataset_guard_depth = 0 /\
  sdsetnbitdataset_handle_reassigned_after_guard = 0 /\
  sdwritechunk_guard_depth = 0 /\
  sdwritechunk_handle_reassigned_after_guard = 0 /\
  grsetattr_guard_depth = 0 /\
  grsetattr_effects_before_guard = 0 /\
  hstartaccess_guard_depth = 0 /\
  hstartaccess_effects_before_guard = 0 /\
  hsetlength_guard_depth = 0 /\
  hsetlength_effects_before_guard = 0 /\
  hlcreate_guard_depth = 0 /\
  hlcreate_effects_before_guard = 0 /\
  hlconvert_guard_depth = 0 /\
  hlconvert_effects_before_guard = 0 /\
  hxcreate_guard_depth = 0 /\
  hxcreate_effects_before_guard = 0 /\
  hccreate_guard_depth = 0 /\
  hccreate_effects_before_guard = 0 /\
  hmccreate_guard_depth = 0 /\
  hmccreate_effects_before_guard = 0 /\
  hmcwritechunk_guard_depth = 0 /\
  hmcwritechunk_effects_before_guard = 0 /\
  hdupdd_guard_depth = 0 /\
  hdupdd_effects_before_guard = 0 /\
  hdeldd_guard_depth = 0 /\
  hdeldd_effects_before_guard = 0 /\
  hdreuse_tagref_guard_depth = 0 /\
  hdreuse_tagref_effects_before_guard = 0 /\
  vattach_guard_depth = 0 /\
  vattach_effects_before_guard = 0 /\
  vdelete_guard_depth = 0 /\
  vdelete_effects_before_guard = 0 /\
  vsdelete_guard_depth = 0 /\
  vsdelete_effects_before_guard = 0 /\
  vaddtagref_guard_depth = 0 /\
  vaddtagref_effects_before_guard = 0 /\
  vdeletetagref_guard_depth = 0 /\
  vdeletetagref_effects_before_guard = 0 /\
  vswrite_guard_depth = 0 /\
  vswrite_effects_before_guard = 0 /\
  hwrite_guard_depth = 0 /\
  hwrite_effects_before_guard = 0 /\
  htrunc_guard_depth = 0 /\
  htrunc_effects_before_guard = 0 /\
  sdcreate_success_exits_before_guard = 0 /\
  sdcreate_stores_before_guard = 0 /\
  sdsetdimname_success_exits_before_guard = 0 /\
  sdsetdimname_stores_before_guard = 0 /\
  sdsetrange_success_exits_before_guard = 0 /\
  sdsetrange_stores_before_guard = 0 /\
  sdsetattr_success_exits_before_guard = 0 /\
  sdsetattr_stores_before_guard = 0 /\
  sdsetdatastrs_success_exits_before_guard = 0 /\
  sdsetdatastrs_stores_before_guard = 0 /\
  sdsetcal_success_exits_before_guard = 0 /\
  sdsetcal_stores_before_guard = 0 /\
  sdsetfillvalue_success_exits_before_guard = 0 /\
  sdsetfillvalue_stores_before_guard = 0 /\
  sdsetdimstrs_success_exits_before_guard = 0 /\
  sdsetdimstrs_stores_before_guard = 0 /\
  sdsetdimscale_success_exits_before_guard = 0 /\
  sdsetdimscale_stores_before_guard = 0 /\
  sdsetdimval_comp_success_exits_before_guard = 0 /\
  sdsetdimval_comp_stores_before_guard = 0 /\
  sdwritedata_success_exits_before_guard = 0 /\
  sdwritedata_stores_before_guard = 0 /\
  sdsetexternalfile_success_exits_before_guard = 1 /\
  sdsetexternalfile_stores_before_guard = 0 /\
  sdsetcompress_success_exits_before_guard = 0 /\
  sdsetcompress_stores_before_guard = 0 /\
  sdsetchunk_success_exits_before_guard = 0 /\
  sdsetchunk_stores_before_guard = 0 /\
  sdsetnbitdataset_success_exits_before_guard = 0 /\
  sdsetnbitdataset_stores_before_guard = 0 /\
  sdwritechunk_success_exits_before_guard = 0 /\
  sdwritechunk_stores_before_guard = 0 /\
  grsetattr_success_exits_before_guard = 0 /\
  grsetattr_stores_before_guard = 0 /\
  hstartaccess_success_exits_before_guard = 0 /\
  hstartaccess_stores_before_guard = 0 /\
  hsetlength_success_exits_before_guard = 0 /\
  hsetlength_stores_before_guard = 0 /\
  hlcreate_success_exits_before_guard = 0 /\
  hlcreate_stores_before_guard = 0 /\
  hlconvert_success_exits_before_guard = 0 /\
  hlconvert_stores_before_guard = 0 /\
  hxcreate_success_exits_before_guard = 0 /\
  hxcreate_stores_before_guard = 0 /\
  hccreate_success_exits_before_guard = 0 /\
  hccreate_stores_before_guard = 0 /\
  hmccreate_success_exits_before_guard = 0 /\
  hmccreate_stores_before_guard = 0 /\
  hmcwritechunk_success_exits_before_guard = 0 /\
  hmcwritechunk_stores_before_guard = 0 /\
  hdupdd_success_exits_before_guard = 0 /\
  hdupdd_stores_before_guard = 0 /\
  hdeldd_success_exits_before_guard = 0 /\
  hdeldd_stores_before_guard = 0 /\
  hdreuse_tagref_success_exits_before_guard = 0 /\
  hdreuse_tagref_stores_before_guard = 0 /\
  vattach_success_exits_before_guard = 0 /\
  vattach_stores_before_guard = 0 /\
  vdelete_success_exits_before_guard = 0 /\
  vdelete_stores_before_guard = 0 /\
  vsdelete_success_exits_before_guard = 0 /\
  vsdelete_stores_before_guard = 0 /\
  vaddtagref_success_exits_before_guard = 0 /\
  vaddtagref_stores_before_guard = 0 /\
  vdeletetagref_success_exits_before_guard = 0 /\
  vdeletetagref_stores_before_guard = 0 /\
  vswrite_success_exits_before_guard = 0 /\
  vswrite_stores_before_guard = 0 /\
  hwrite_success_exits_before_guard = 0 /\
  hwrite_stores_before_guard = 0 /\
  htrunc_success_exits_before_guard = 0 /\
  htrunc_stores_before_guard = 0 /\
  sdcreate_registers_before_guard = 0 /\
  sdsetdimname_registers_before_guard = 0 /\
  sdsetrange_registers_before_guard = 0 /\
  sdsetattr_registers_before_guard = 0 /\
  sdsetdatastrs_registers_before_guard = 0 /\
  sdsetcal_registers_before_guard = 0 /\
  sdsetfillvalue_registers_before_guard = 0 /\
  sdsetdimstrs_registers_before_guard = 0 /\
  sdsetdimscale_registers_before_guard = 0 /\
  sdsetdimval_comp_registers_before_guard = 0 /\
  sdwritedata_registers_before_guard = 0 /\
  sdsetexternalfile_registers_before_guard = 0 /\
  sdsetcompress_registers_before_guard = 0 /\
  sdsetchunk_registers_before_guard = 0 /\
  sdsetnbitdataset_registers_before_guard = 0 /\
  sdwritechunk_registers_before_guard = 0.
Proof. repeat split; reflexivity. Qed.

(** Hopen of an already open path: the write bit is given to the shared record after the reopen has been attempted
    (exactly one "rb+" fopen before it) and no failing exit follows the update in its block *)
Lemma hopen_upgrade_position :
  hopen_failing_exits_after_upgrade = 0 /\ hopen_reopen_attempts_before_upgrade = 1 /\ hopen_upgrade_bits = DFACC_WRITE.
Proof. repeat split; reflexivity. Qed.

(** the SD-layer and GR guards say: no NC_RDWR flag / no write bit -> refused *)
Definition nc_guard (g : Z -> Z) : Prop := forall fl, g fl = 1 <-> Z.land fl NC_RDWR = 0.
Lemma nc_generic : forall fl, (if Z.eqb (Z.land fl 1) 0 then 1 else 0) = 1 <-> Z.land fl 1 = 0.
Proof. intro fl. destruct (Z.eqb_spec (Z.land fl 1) 0); split; intro; auto; try discriminate; contradiction. Qed.
Lemma sd_guards_full :
  nc_guard sdcreate_denied /\
  nc_guard sdsetdimname_denied /\
  nc_guard sdsetrange_denied /\
  nc_guard sdsetattr_denied /\
  nc_guard sdsetdatastrs_denied /\
  nc_guard sdsetcal_denied /\
  nc_guard sdsetfillvalue_denied /\
  nc_guard sdsetdimstrs_denied /\
  nc_guard sdsetdimscale_denied /\
  nc_guard sdsetdimval_comp_denied /\
  nc_guard sdwritedata_denied /\
  nc_guard sdsetexternalfile_denied /\
  nc_guard sdsetcompress_denied /\
  nc_guard sdsetchunk_denied /\
  nc_guard sdsetnbitdataset_denied /\
  nc_guard sdwritechunk_denied.
Proof. unfold nc_guard, NC_RDWR. repeat (split; [exact nc_generic|]). exact nc_generic. Qed.
Lemma grsetattr_guard : write_guard grsetattr_denied.
Proof. unfold grsetattr_denied. wg. Qed.

(** a refused reopen for writing leaves a read-only record read-only; so does any open that asks for no write access *)
Lemma hopen_again_refused_keeps_ro : forall f mode f' r w,
  ro_inv f -> hopen_again f mode false = (f', r, w) -> ro_inv f' /\ w = [].
Proof.
  intros f mode f' r w Hinv H. unfold hopen_again in H.
  destruct (f_open f); simpl in H; [| inversion H; subst; auto].
  destruct (nz (hopen_needs_upgrade mode (f_access f))).
  - rewrite (hisync_ro f Hinv) in H. inversion H; subst. auto.
  - inversion H; subst. auto.
Qed.
Lemma hopen_again_readonly_keeps_ro : forall f mode ok f' r w,
  ro_inv f -> Z.land mode DFACC_WRITE = 0 -> hopen_again f mode ok = (f', r, w) -> ro_inv f' /\ w = [].
Proof.
  intros f mode ok f' r w Hinv Hm H. unfold hopen_again in H.
  destruct (f_open f); simpl in H; [| inversion H; subst; auto].
  assert (E : hopen_needs_upgrade mode (f_access f) = 0).
  { unfold hopen_needs_upgrade, DFACC_WRITE in *. rewrite Hm. reflexivity. }
  rewrite E in H. simpl in H. inversion H; subst. auto.
Qed.

(** round 4: the write attach of an existing vdata opens its data element on every path of that branch and checks the
    result; SDreaddata / SDwritedata name themselves (NCcoordck decides by that name whether a read past the end of a
    record variable is refused or filled by WRITING records); GRsetcompress fails exactly when the element cannot be
    created *)
Lemma round4_structure :
  vsattach_w_hstartwrite_depth = 2 /\ vsattach_w_failure_checked = 1 /\
  sdreaddata_sets_routine_name = 1 /\ sdwritedata_sets_routine_name = 1.
Proof. repeat split; reflexivity. Qed.
Lemma grsetcompress_fail_spec : forall r, grsetcompress_fails_when r = 1 <-> r = FAIL.
Proof.
  intro r. unfold grsetcompress_fails_when, FAIL. simpl.
  destruct (Z.eqb_spec r (-1)); split; intro; auto; try discriminate; contradiction.
Qed.
